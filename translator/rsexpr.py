"""
rsexpr.py — a translator for a small fragment of Rust into Lean 4 (engine E2).

Sound by construction: the translator succeeds only on source it understands; anything else raises `TranslateError`
(./check treats that as a broken obligation), never a guess. Every *semantic choice* (what a library method means, how a
machine type is modelled) is an explicit entry of the job's tables in rs2lean.py (`funcs`, `accessors`, `opts`) or one of
the fixed rules listed under "Semantic choices" below.

1. Expression fragment (class `Parser`, entry `translate`)
   A function whose body is a block of
       let <ident | (a, b)> = <expr>;        if <expr> { return <expr>; }        return <expr>;
   followed by a final expression; expressions are built from identifiers, integer / bool literals, paths
   (`Orientation::Collinear`, `T::zero()`), field access, no-argument method calls (`self.min()`: through the job's `accessors`
   templates; for the older jobs without such a table they are kept like fields and resolved by the job's substitutions),
   calls of whitelisted functions / methods (a whitelist entry is a Lean function name or a template `{0} {1} …` over receiver
   and arguments; one method name on receivers of different static types is resolved by a list of (receiver pattern, template)),
   tuples, unary `!`, `-`, `*` (deref, ignored), `&` (ignored), binary `|| && == != < <= > >= + - * / %`, parentheses,
   `if … { … } else if … { … } else { … }`, `match e { P | Q => e, … }` with enum-path patterns and `_`,
   pure closures `|a, &b| e` (→ `fun a b => e`, only as arguments of whitelisted methods such as `.any`, `.all`, `.fold`),
   fixed-length array literals (→ tuples), constant indexing `e[0][1]` (resolved by the caller's substitution table, an
   unresolved index is an error), struct literals of whitelisted structs with all fields in declaration order (also `coord!`
   and the field-init shorthand `Self { exterior, interiors }`), `T::from(x)?` with `x : T` (identity), `unreachable!(…)`
   (only with a value chosen by the job).

2. Effect blocks (class `EffectParser`, entry `translate_effect_loop`): the body of one `for` loop whose effects are
   `acc += 1`, `acc -= 1`, early `return X;` → `Option Int` (kept for `ringEdge`).

3. Statement fragment (class `StmtParser`, entry `translate_fn`): whole functions with mutable state.
   * State: `&mut` parameters (`is_inside: &mut bool`), `mut` by-value parameters, fields of `&mut self` declared as *places*
     (`self.exterior` → one variable), and `let mut x = e;` locals (type from the job's `mut_types`, `Bool` for a bool literal).
     Every mutable variable is a Lean `let`-bound name; assignment (`x = e`, `*x = e`, `x += e`, `-=`, `*=`, `/=`) is a shadowing
     `let`. Shadowing a live mutable variable by `let` is rejected. A unit function returns `ret_ctor` applied to its `&mut`
     parameters (`PosAcc.mk is_inside boundary_count`); with `ret_both` a function returns (state, value).
   * Control: `return;` / `return e;` anywhere; `if` / `else if` / `else` and `match` (arms: block, `return`, assignment, value,
     `unreachable!`) as statements. When a branch statement is followed by more code and more than one arm falls through (or
     an arm binds a name that the following code mentions), the following code becomes a *join point*: a local function of the
     live mutable variables (`let k := fun (m₁ : T₁) … => rest`), called from every arm that falls through; otherwise it is inlined.
   * Loops: `for x in <list expr> { … }` over the live mutable variables σ: without a `return` in the body a `List.foldl`
     (the accumulating loops of area.rs), with one `Gen.loop` (GeoModel/TRANPrelude.lean: each iteration yields `Step.next σ` or
     `Step.ret r`, the latter leaves the function). `for x in &mut v { … }` where the body updates only `x` is `v := v.map …`.
   * State-transforming calls `recv.m(args…, a, &mut b)` of a job-listed method (`calculate_coordinate_position`): the listed
     Lean function applied to receiver, arguments and the constructor of the state, results projected back into the variables.
     `X.push(e)` on a list variable is append; `X.m(..)` for a job-listed `mut_methods` entry is `X := m X ..`;
     `f(&mut X)` / `let r = f(&mut X)` for a closure *parameter* `f` is a job-declared function old X ↦ (new X, result).
   * Fixed arrays: a job-declared array (`self.to_lines()`, its elements read off the source by `array_literal`) under
     `.map(|x| { …; value })` is unrolled element by element in order, assignments to captured mutable variables flowing from
     one copy to the next; the result is known element by element: `a[0]`, `a.windows(k).all(|w| …)` / `.any` (unrolled),
     `a.sort()` (the job names the sorting function for that length). Names bound inside an unrolled closure or an inlined
     arm must not occur in the code after it (checked on the tokens; otherwise an error).
   * List iterators: `let Some(x) = it.next() else { … };` = head of the list, `let Some(x) = it.find(|v| p) else { … };` =
     head of `List.dropWhile (¬p)`; `it` continues behind the element taken; the else block must diverge.
   * Skipped: `use …;` inside bodies.

4. Second growth (task TRAN2; job tables in translator/jobs2.py)
   * Patterns (`pattern`, `subpattern`, `patterns`): unit variants of the job's `paths` (bare names only when listed in
     `bare_variants`), tuple variants `P(x, _)` with payload bound by name / ignored / an `Option` pattern, struct variants
     `P { f, g: <sub>, .. }` of a job-declared `variants` entry (Lean constructor + fields in constructor order; fields under
     `..` are bound to `<f>_rest`), tuple patterns `(P, Q)`, `None`, `Some(<sub>)`; alternatives `P | Q` may bind names only
     if every alternative binds the same names; match guards are rejected.
   * `matches!(e, P | Q)` = `match e with | P | Q => true | _ => false`.
   * `let x = match e { P => return r, …, Q(v) => value };` (`let_match`): `return` arms leave the function, exactly one arm
     yields the value, the rest of the block is placed inside that arm (pattern names must not occur in it).
   * `if let <pattern> = <expr> { … } [else { … }]` as a statement (`if_let`).
   * `match X { … }` / `match (e, X) { … }` on a live mutable enum-valued variable X listed in `enum_vars` (a `&mut self`
     method whose `self` is renamed by `places`): the fields a struct-variant arm names become mutable variables of the arm
     (types from `field_types`), assigned through `*f = e` or `std::mem::swap(f, g)`, and the arm ends by rebuilding
     X := Ctor fields…; an arm with alternatives is written once per alternative.
   * `match X.as_mut() { Some(v) => v.m(args), None => X = e }` on a live mutable `Option` variable, `m` in `mut_methods`.
   * `self.m(args);` for a `self_methods` entry, where the state of `self` is the variable `self_var`: X := m X args — also
     as a brace-less match arm; `x.f = e` on a `struct_vars` variable: a record update; `X[a][b]` / `X[a][b] = e` on an
     `index2` variable: the job's get / set templates; struct literals may list their fields in any order (pure fields).
   * `for (i, x) in …`: the pair is unpacked at the head of the body; closure parameters may carry a type `|a: F|` that the job
     maps in `type_names`; `translate_expr_after`: the pure expression following a header, e.g. the body of a closure bound by
     `let cmp = |q, r| match … ;`; `translate_fn` on a header that ends in a closure's `|…| {` translates that closure body.
   * accessors (no-argument methods) may be lists of (receiver pattern, template), like the whitelisted calls.
   * `while cond { … break; … }` (`while_stmt`): `Gen.whileFuel FUEL cond body σ` (GeoModel/TRAN2Prelude.lean) with FUEL the
     job's `while_fuel` expression; the job must set `option_wrap`: every normal result of the function is `some …` and an
     exhausted bound is `none`, so a wrong bound cannot yield a wrong value (the tie theorem shows `none` never occurs).
   * `P[i]` on a job-declared indexed place P of a mutable variable (`index1`: variable, get / set templates, methods of the
     whole place such as `slice::swap`): reads through `get`; `P[i] = e;` and `P[i].m(args);` (m in `mut_methods`) write
     through `set`.
   * closure parameters may be tuple patterns `|(_, p), (_, q)|` (Lean's pattern-matching `fun`); `v[<expr>]` with a computed
     index only under `unguarded_index: "total"`.

Semantic choices (fixed rules; everything else is in the job tables of rs2lean.py, each with a comment there)
   * numbers are exact rationals (`Rat`; counters `Nat` / `Int` per job): no overflow, no rounding, no NaN — so
     `a.partial_cmp(&b)` is never `None` (`Gen.partialCmp?`), comparisons become `decide (…)`, integer `/` and `%` are only
     used on `Nat` counters; `as` casts are dropped (only between number types, in the older jobs).
   * `Option::unwrap` is the total `Gen.unwrap` (default on `None`); panics are not modelled — the correspondence harness
     runs every case under `catch_unwind` and reports `panic`.
   * `debug_assert!(…)` needs the job option `debug_assert: "skip"` = release-build semantics (the harness is built with
     `--release`); `debug_assert!(!X.is_empty())` additionally serves as the length guard for `X[0]` that follows it.
   * `v[k]` on a `Vec` with a constant `k` is accepted only under a dominating guard (`v.len() == n` branch, early return on
     `v.len() < n` / `v.is_empty()`, or the debug assertion above) and becomes `Gen.idx v k` whose default is unreachable.
   * `unreachable!()` arms take the value chosen by the job (dead code for the types concerned).
   * Rust identifiers that are reserved words of Lean get a trailing `_` (not field names after a `.`).
   * `panic!(…)` as an arm or last statement takes the value chosen by the job (`panic`; a unit function: the current state);
     the panic itself is not modelled (the harness reports panics).
   * `T::from(<integer literal>).unwrap()` is the literal as a `Rat` (the conversion never fails).
   * job option `unguarded_index: "total"`: `v[k]` is `Gen.idx v k` also where no guard dominates it syntactically (the
     source's guard is semantic, e.g. "dimension is not Empty"); out-of-range panics are not modelled.
   * job option `ord_key`: `< <= > >=` in this job compare values of a derive(Ord) enum by the named rank function.
   * job option `rank_match_default`: the job encodes an enum by its rank (`Nat`), so an exhaustive Rust match gets a
     catch-all arm in Lean that leaves the state unchanged (dead: every rank is one of the listed numerals).
   * square roots (`Euclidean.distance`, `Euclidean.length`, `hypot`) are never computed: they are parameters of the
     regenerated terms, and the tie theorems state what they assume about them.

Numbers become `Rat`, comparisons `decide (…)`, so that the result is a computable Lean term which can be compared
(`rfl` / `simp`) with the hand-written model.
"""
import re


class TranslateError(Exception):
    pass


# Rust identifiers that are reserved words of Lean get a trailing underscore (only as stand-alone names, not as fields)
LEAN_KEYWORDS = set("""end at from by do then fun have show open with calc instance def theorem structure class namespace
section variable universe import export mutual macro syntax notation unless try catch finally deriving extends abbrev example
using suffices obtain nomatch nofun Type Prop Sort""".split())


TOK = re.compile(r"\s*(?:(\d+\.\d+|\d+)|([A-Za-z_][A-Za-z_0-9]*(?:::[A-Za-z_][A-Za-z_0-9]*)*)|(\|\||&&|==|!=|<=|>=|->|=>|[-+*/%!<>=(){},;.&:\[\]?|])|(\"(?:[^\"\\]|\\.)*\"))")


def tokenize(src):
    toks, i = [], 0
    src = src.strip()
    while i < len(src):
        m = TOK.match(src, i)
        if not m or m.end() == i:
            if src[i:].strip() == "":
                break
            raise TranslateError("cannot tokenize near %r" % src[i:i + 40])
        if m.group(1):
            toks.append(("num", m.group(1)))
        elif m.group(2):
            name = m.group(2)
            if name in LEAN_KEYWORDS and not (toks and toks[-1] == ("op", ".")):
                name += "_"                         # a Rust name that is a reserved word of Lean (not a field name)
            toks.append(("id", name))
        elif m.group(4):
            toks.append(("str", m.group(4)))       # string literal: only legal inside a skipped macro argument list
        else:
            toks.append(("op", m.group(3)))
        i = m.end()
    return toks


class Parser:
    def __init__(self, toks, paths, funcs, structs=None, opts=None):
        self.t, self.i, self.paths, self.funcs = toks, 0, paths, funcs
        self.structs = structs or {}
        self.opts = opts or {}
        self.accessors = self.opts.get("accessors", {})     # no-argument methods: name -> template over the receiver
        self.strict = self.opts.get("strict", False)          # unknown no-argument method => error
        self.arrays = {}                                      # fixed-length arrays known element by element
        self.minlen = {}                                      # Vec term -> length lower bound established by a guard
        self.bound = set()                                    # names bound by let / closures / loops so far
        self.pending = None
        self.pat_names = set()
        self.pat_structs = []
        self.pat_alts = []

    def peek(self, k=0):
        return self.t[self.i + k] if self.i + k < len(self.t) else ("eof", "")

    def eat(self, kind=None, val=None):
        tk = self.peek()
        if (kind and tk[0] != kind) or (val is not None and tk[1] != val):
            raise TranslateError("expected %s %s, found %s" % (kind, val, tk))
        self.i += 1
        return tk

    def at(self, val):
        return self.peek()[1] == val and self.peek()[0] in ("op", "id")

    # ---- blocks and statements -> Lean term
    def block(self, tail=False):
        """`tail`: the block's value is the value of the enclosing function (or closure), so `return e` = the value `e`"""
        self.eat("op", "{")
        term = self.stmts(tail)
        self.eat("op", "}")
        return "(" + term + ")" if term.startswith("let ") or term.startswith("if ") else term

    def stmts(self, tail=False):
        if self.at("use"):
            while not self.at(";"):
                self.eat()
            self.eat()
            return self.stmts(tail)
        if self.at("let"):
            self.eat()
            if self.at("mut"):
                raise TranslateError("`let mut` is outside the fragment")
            if self.at("("):
                self.eat()
                names = [self.eat("id")[1]]
                while self.at(","):
                    self.eat(); names.append(self.eat("id")[1])
                self.eat("op", ")")
                pat = "(" + ", ".join(names) + ")"
            else:
                pat = self.eat("id")[1]
            if self.at(":"):          # type ascription
                self.eat()
                while not self.at("="):
                    self.eat()
            self.eat("op", "=")
            e = self.expr()
            self.eat("op", ";")
            return "let %s := %s\n  %s" % (pat, e, self.stmts(tail))
        if self.at("return"):
            if not tail:
                raise TranslateError("`return` inside a nested block expression")
            self.eat()
            e = self.expr()
            if self.at(";"):
                self.eat()
            return e
        if self.at("if"):
            # statement `if c { return e; }` followed by more, or a final if-expression
            save = self.i
            self.eat()
            c = self.expr()
            body = self.block(tail)
            if self.at("else"):
                self.i = save
                e = self.expr(tail)
                return e
            if self.at("}"):
                raise TranslateError("`if` without else as final expression")
            rest = self.stmts(tail)
            return "if %s then %s else\n  %s" % (c, body, rest)
        e = self.expr(tail)
        return e

    # ---- expressions
    def expr(self, tail=False):
        if self.at("if"):
            self.eat()
            c = self.expr()
            a = self.block(tail)
            self.eat("id", "else")
            b = self.expr(tail) if self.at("if") else self.block(tail)
            return "(if %s then %s else %s)" % (c, a, b)
        if self.at("match"):
            return self.match_expr(tail)
        return self.binary(0)

    def subpattern(self):
        """a pattern in field / payload position: `_`, a name (binds), `None`, `Some(<sub>)`, a unit variant of the job's paths"""
        tk = self.eat()
        if tk == ("id", "_"):
            return "_"
        if tk == ("id", "None"):
            return "none"
        if tk == ("id", "Some"):
            self.eat("op", "(")
            sub = self.subpattern()
            self.eat("op", ")")
            return "(some %s)" % sub
        if tk[0] == "id" and tk[1] in self.paths and ("::" in tk[1] or tk[1] in self.opts.get("bare_variants", ())):
            return self.paths[tk[1]]
        if tk[0] == "id" and "::" not in tk[1] and tk[1] not in self.paths and not self.at("(") and not self.at("{"):
            self.pat_names.add(tk[1])
            return tk[1]
        raise TranslateError("nested pattern outside the fragment: %s" % (tk,))

    def pattern(self):
        tk = self.eat()
        if tk == ("id", "_"):
            return "_"
        if tk == ("op", "("):
            # tuple pattern `(P, Q)` (the scrutinee is a tuple expression)
            items = [self.pattern()]
            while self.at(","):
                self.eat(); items.append(self.pattern())
            self.eat("op", ")")
            return "(" + ", ".join(items) + ")"
        variants = self.opts.get("variants", {})
        if tk[0] == "id" and tk[1] in variants and self.at("{"):
            # struct-variant pattern `Path { f, g: <sub>, .. }` of a job-declared variant (Lean constructor, fields in
            # constructor order): a field written alone binds its name; fields covered by `..` are bound to `<f>_rest`
            # (so that a `&mut` match can rebuild the value); without `..` every field must be written
            ctor, fields = variants[tk[1]]
            self.eat()
            given, rest = {}, False
            while not self.at("}"):
                if self.at(".") and self.peek(1) == ("op", "."):
                    self.eat(); self.eat(); rest = True
                    if not self.at("}"):
                        raise TranslateError("`..` must come last in a struct pattern")
                    break
                f = self.eat("id")[1]
                if f not in fields or f in given:
                    raise TranslateError("struct pattern %s: unexpected field %s" % (tk[1], f))
                if self.at(":"):
                    self.eat()
                    given[f] = self.subpattern()
                else:
                    if f in self.paths:
                        raise TranslateError("field name %s collides with a path of the job" % f)
                    self.pat_names.add(f)
                    given[f] = f
                if self.at(","):
                    self.eat()
            self.eat("op", "}")
            if not rest and set(given) != set(fields):
                raise TranslateError("struct pattern %s: missing fields without `..`" % tk[1])
            leans = [given.get(f, f + "_rest") for f in fields]
            self.pat_structs.append((ctor, fields, leans, [f for f in fields if given.get(f) == f]))
            return "%s %s" % (ctor, " ".join(leans))
        if tk[0] == "id" and tk[1] in self.paths and ("::" in tk[1] or tk[1] in self.opts.get("bare_variants", ())):
            ctor = self.paths[tk[1]]
            if self.at("("):
                # tuple-variant pattern `Path(a, _)`: the payload is bound by name, ignored, or an Option pattern
                self.eat()
                subs = []
                while not self.at(")"):
                    subs.append(self.subpattern())
                    if self.at(","):
                        self.eat()
                self.eat("op", ")")
                if not subs:
                    raise TranslateError("empty payload pattern")
                return "%s %s" % (ctor, " ".join(subs))
            return ctor
        if tk in (("id", "None"), ("id", "Some")):
            self.i -= 1
            return self.subpattern()
        raise TranslateError("pattern outside the fragment: %s" % (tk,))

    def one_alternative(self):
        """one alternative of an arm: (Lean pattern, names it binds, struct-variant patterns in it)"""
        self.pat_names, self.pat_structs = set(), []
        pat = self.pattern()
        return pat, set(self.pat_names), list(self.pat_structs)

    def patterns(self):
        """alternatives `P | Q`; the names bound are collected in `self.pat_names`. Alternatives may bind names only when
        every alternative binds the same names (then Lean and Rust agree). Guards are outside the fragment."""
        alts = [self.one_alternative()]
        while self.at("|"):
            self.eat(); alts.append(self.one_alternative())
        if any(a[1] != alts[0][1] for a in alts):
            raise TranslateError("alternative patterns that bind different names are outside the fragment")
        if self.at("if"):
            raise TranslateError("match guards are outside the fragment")
        self.pat_names = set(alts[0][1])
        self.pat_alts = alts
        self.bound.update(self.pat_names)
        return " | ".join(a[0] for a in alts)

    def skip_macro_args(self):
        """skip `!( … )` of a macro invocation whose arguments are not translated"""
        self.eat("op", "!"); self.eat("op", "(")
        depth = 1
        while depth:
            tk = self.eat()
            if tk[0] == "eof":
                raise TranslateError("unbalanced macro arguments")
            if tk == ("op", "("): depth += 1
            elif tk == ("op", ")"): depth -= 1

    def unreachable(self):
        self.eat("id", "unreachable")
        self.skip_macro_args()
        if "unreachable" not in self.opts:
            raise TranslateError("unreachable!() without a value chosen by the job")
        return self.opts["unreachable"]

    def panic(self):
        """`panic!(…)` as the value of an arm: the value chosen by the job (`panic`), the panic itself is not modelled
        (the harness reports panics)"""
        self.eat("id", "panic")
        self.skip_macro_args()
        if "panic" not in self.opts:
            raise TranslateError("panic!() without a value chosen by the job")
        return self.opts["panic"]

    def match_expr(self, tail=False):
        """`match e { P | Q => expr, … }` with enum-path patterns and pure arms"""
        self.eat("id", "match")
        scrut = self.expr()
        self.eat("op", "{")
        arms = []
        while not self.at("}"):
            pats = self.patterns()
            self.eat("op", "=>")
            if self.at("unreachable"):
                body = self.unreachable()
            elif self.at("panic") and self.peek(1) == ("op", "!"):
                body = self.panic()
            elif self.at("{"):
                body = self.block(tail)
            else:
                body = self.expr()
            if self.at(","):
                self.eat()
            arms.append("\n  | %s => %s" % (pats, body))
        self.eat("op", "}")
        if not arms:
            raise TranslateError("empty match")
        return "(match %s with%s)" % (scrut, "".join(arms))

    def closure(self):
        """`|a, &b| body` (pure body) -> `(fun a b => body)`"""
        self.eat("op", "|")
        params = []
        typed = []
        while not self.at("|"):
            if self.at("&"):
                self.eat()
            if self.at("("):
                # a tuple parameter `(a, _)`: Lean's pattern-matching `fun (a, _) => …`
                self.eat()
                comps = [self.eat("id")[1]]
                while self.at(","):
                    self.eat(); comps.append(self.eat("id")[1])
                self.eat("op", ")")
                params.extend(c for c in comps if c != "_")
                typed.append("(" + ", ".join(comps) + ")")
                if self.at(","):
                    self.eat()
                continue
            params.append(self.eat("id")[1])
            if self.at(":"):
                # `|a: F|`: the parameter type, from the job's `type_names` (Rust type name -> Lean type)
                self.eat()
                ty = self.eat("id")[1]
                if ty not in self.opts.get("type_names", {}):
                    raise TranslateError("closure parameter type %s without a Lean type chosen by the job" % ty)
                typed.append("(%s : %s)" % (params[-1], self.opts["type_names"][ty]))
            else:
                typed.append(params[-1])
            if self.at(","):
                self.eat()
        self.eat("op", "|")
        if not params:
            raise TranslateError("closure without parameters")
        self.bound.update(params)
        body = self.expr(True)        # `return e` inside a closure body = the closure's value
        return "(fun %s => %s)" % (" ".join(typed), body)

    LEVELS = [["||"], ["&&"], ["==", "!=", "<", "<=", ">", ">="], ["+", "-"], ["*", "/", "%"]]

    def binary(self, lvl):
        if lvl == len(self.LEVELS):
            return self.unary()
        lhs = self.binary(lvl + 1)
        while self.peek()[0] == "op" and self.peek()[1] in self.LEVELS[lvl]:
            op = self.eat()[1]
            rhs = self.binary(lvl + 1)
            if op in ("<", "<=", ">", ">="):
                k = self.opts.get("ord_key")
                if k:
                    # the job compares values of a derive(Ord) enum: by the rank function it names
                    lhs, rhs = "(%s %s)" % (k, lhs), "(%s %s)" % (k, rhs)
                lhs = "decide (%s %s %s)" % (lhs, {"<=": "≤", ">=": "≥"}.get(op, op), rhs)
                lhs = "(" + lhs + ")"
            else:
                lhs = "(%s %s %s)" % (lhs, op, rhs)
        return lhs

    def unary(self):
        if self.at("|"):
            return self.closure()
        if self.at("!"):
            self.eat(); return "(!%s)" % self.unary()
        if self.at("-"):
            self.eat(); return "(-%s)" % self.unary()
        if self.at("*") or self.at("&"):
            self.eat(); return self.unary()
        return self.postfix()

    def call_template(self, tmpl, recv, args):
        if isinstance(tmpl, list):
            # one method name on receivers of different static types: the job lists (receiver pattern, template)
            for pat, t in tmpl:
                if recv is not None and re.match(pat, recv):
                    tmpl = t
                    break
            else:
                raise TranslateError("no receiver pattern of the job matches %r" % (recv,))
        if "{" in tmpl:
            return tmpl.format(*(([recv] if recv is not None else []) + args))
        return "(%s %s)" % (tmpl, " ".join(([recv] if recv is not None else []) + args))

    def accessor(self, name, recv):
        """a no-argument method of the job's `accessors`: a template over the receiver, or — one method name on receivers of
        different static types — a list of (receiver pattern, template), first match wins, no match is an error"""
        tmpl = self.accessors[name]
        if isinstance(tmpl, list):
            for pat, t in tmpl:
                if re.match(pat, recv):
                    return t.format(recv)
            raise TranslateError("no receiver pattern of the job matches %r for .%s()" % (recv, name))
        return tmpl.format(recv)

    def args(self):
        """`( e, … )` with optional trailing comma"""
        self.eat("op", "(")
        args = []
        while not self.at(")"):
            args.append(self.expr())
            if self.at(","):
                self.eat()
            elif not self.at(")"):
                raise TranslateError("expected , or ) in argument list, found %s" % (self.peek(),))
        self.eat("op", ")")
        return args

    def windows(self, elems):
        """`arr.windows(k).all(|w| e)` / `.any(…)` on an array known element by element: unrolled"""
        self.eat("op", "(")
        k = int(self.eat("num")[1])
        self.eat("op", ")")
        self.eat("op", ".")
        quant = self.eat("id")[1]
        if quant not in ("all", "any") or k < 1 or k > len(elems):
            raise TranslateError("windows(%d).%s outside the fragment" % (k, quant))
        self.eat("op", "(")
        self.eat("op", "|")
        w = self.eat("id")[1]
        self.eat("op", "|")
        start = self.i
        parts = []
        for j in range(len(elems) - k + 1):
            self.i = start
            if w in self.arrays:
                raise TranslateError("closure parameter shadows an array")
            self.arrays[w] = elems[j:j + k]
            parts.append(self.expr())
            del self.arrays[w]
        self.eat("op", ")")
        return "(" + (" && " if quant == "all" else " || ").join(parts) + ")"

    def state_call(self, recv, name):
        """`recv.m(args…, [&mut] a, [&mut] b)` for a whitelisted state-transforming method: only legal as a statement"""
        spec = self.opts["state_calls"][name]
        self.eat("op", "(")
        args = []
        while not self.at(")"):
            if self.at("&") and self.peek(1) == ("id", "mut"):
                self.eat(); self.eat()
            args.append(self.expr())
            if self.at(","):
                self.eat()
        self.eat("op", ")")
        n = len(spec["proj"])
        if len(args) < n:
            raise TranslateError("state call %s with too few arguments" % name)
        if self.pending is not None:
            raise TranslateError("two state calls in one statement")
        self.pending = {"fn": spec["fn"], "ctor": spec["ctor"], "proj": spec["proj"], "recv": recv,
                        "args": args[:len(args) - n], "muts": args[len(args) - n:]}
        return "⟪STATECALL⟫"

    def postfix(self):
        e = self.primary()
        while True:
            if self.at("."):
                self.eat()
                tk = self.eat()
                name = tk[1]
                if tk[0] == "num":
                    name = str(int(name) + 1)      # tuple projection .0 -> .1
                if self.at("("):
                    if e in self.arrays:
                        if name == "windows":
                            e = self.windows(self.arrays[e])
                            continue
                        raise TranslateError("use of the array %s outside the fragment" % e)
                    if name in self.opts.get("state_calls", {}):
                        e = self.state_call(e, name)
                        continue
                    if name == "map" and e in self.opts.get("arrays", {}) and self.peek(1) == ("op", "|"):
                        # `ARR.map(|x| …)` on a job-declared fixed array: recorded, unrolled by the `let` statement
                        self.eat("op", "(")
                        start, depth = self.i, 1
                        while depth:
                            tk2 = self.eat()
                            if tk2[0] == "eof":
                                raise TranslateError("unbalanced closure")
                            if tk2 == ("op", "("): depth += 1
                            elif tk2 == ("op", ")"): depth -= 1
                        if self.pending is not None:
                            raise TranslateError("two pending forms in one statement")
                        self.pending = {"array": self.opts["arrays"][e], "start": start, "end": self.i}
                        e = "⟪ARRAYMAP⟫"
                        continue
                    if self.peek(1) == ("op", ")"):
                        self.eat("op", "("); self.eat("op", ")")     # no-argument method = accessor
                        if name in self.accessors:
                            e = self.accessor(name, e)
                        elif self.strict:
                            raise TranslateError("no-argument method outside the whitelist: .%s()" % name)
                        else:
                            e = "%s.%s" % (e, name)
                    else:
                        args = self.args()
                        if "." + name not in self.funcs:
                            raise TranslateError("method call outside the whitelist: .%s" % name)
                        e = self.call_template(self.funcs["." + name], e, args)
                else:
                    e = "%s.%s" % (e, name)
            elif self.at("[") and e in self.opts.get("index1", {}):
                # `P[i]` on a job-declared indexed place P of a mutable variable: the job's `get` template over (variable, index)
                ix1 = self.opts["index1"][e]
                self.eat("op", "[")
                i1 = self.expr()
                self.eat("op", "]")
                e = ix1["get"].format(ix1["var"], i1)
            elif self.at("[") and e in self.opts.get("index2", {}):
                # `X[a][b]` on a job-declared doubly indexed variable: the job's `get` template
                idx = []
                for _ in range(2):
                    self.eat("op", "[")
                    idx.append(self.expr())
                    self.eat("op", "]")
                e = self.opts["index2"][e]["get"].format(e, idx[0], idx[1])
            elif self.at("[") and not (self.peek(1)[0] == "num" and self.peek(2) == ("op", "]")):
                # `v[<expr>]` with a computed index: only with the job's explicit choice `unguarded_index: "total"`
                if self.opts.get("unguarded_index") != "total" or e in self.arrays:
                    raise TranslateError("computed index outside the fragment")
                self.eat()
                ix = self.expr()
                self.eat("op", "]")
                e = "(Gen.idx %s %s)" % (e, ix)
            elif self.at("["):
                self.eat()
                n = self.eat("num")[1]
                self.eat("op", "]")
                if e in self.arrays:
                    if int(n) >= len(self.arrays[e]):
                        raise TranslateError("index %s out of range for array %s" % (n, e))
                    e = self.arrays[e][int(n)]
                elif self.minlen.get(e, 0) > int(n):
                    e = "(Gen.idx %s %s)" % (e, n)     # Vec index dominated by a length guard
                elif self.opts.get("unguarded_index") == "total":
                    # explicit choice of the job: `v[k]` is the total `Gen.idx` also where no guard dominates it syntactically
                    # (the out-of-range panic is not modelled; the harness reports panics), cf. `Option::unwrap`
                    e = "(Gen.idx %s %s)" % (e, n)
                else:
                    e = "%s⟦%s⟧" % (e, n)          # constant index; resolved by the caller's substitutions
            elif self.at("as"):
                self.eat(); self.eat("id")
            else:
                return e

    def primary(self):
        tk = self.peek()
        if tk[0] == "num":
            self.eat(); return tk[1]
        if tk == ("op", "("):
            self.eat()
            items = [self.expr()]
            while self.at(","):
                self.eat(); items.append(self.expr())
            self.eat("op", ")")
            return "(" + ", ".join(items) + ")"
        if tk == ("op", "{"):
            return "(" + self.block() + ")"
        if tk == ("op", "["):
            # array literal of fixed length -> tuple
            self.eat()
            items = [self.expr()]
            while self.at(","):
                self.eat()
                if self.at("]"):
                    break
                items.append(self.expr())
            self.eat("op", "]")
            return "(" + ", ".join(items) + ")"
        if tk == ("id", "unreachable") and self.peek(1) == ("op", "!"):
            return self.unreachable()
        if tk == ("id", "matches") and self.peek(1) == ("op", "!"):
            # `matches!(e, P | Q)` (no guard) = `match e with | P | Q => true | _ => false`
            self.eat(); self.eat(); self.eat("op", "(")
            e = self.expr()
            self.eat("op", ",")
            pats = self.patterns()
            self.eat("op", ")")
            return "(match %s with | %s => true | _ => false)" % (e, pats)
        if tk[0] == "id":
            self.eat()
            name = tk[1]
            if name == "coord" and self.at("!"):
                # the `coord! { x: e, y: e }` macro = the struct literal `Coord { x: e, y: e }`
                self.eat()
                name = "Coord"
                if "Coord" not in self.structs or not self.at("{"):
                    raise TranslateError("coord! outside the fragment")
            if name in self.structs and self.at("{"):
                # struct literal `Name { f: e, … }`: fields must come in the declared order
                # (field expressions are pure, so their order in the literal does not matter: every declared field exactly once)
                self.eat()
                given = {}
                while not self.at("}"):
                    f = self.eat("id")[1]
                    if f not in self.structs[name][1] or f in given:
                        raise TranslateError("struct literal %s: unexpected field %s" % (name, f))
                    if self.at(":"):
                        self.eat("op", ":")
                        given[f] = self.expr()
                    else:
                        given[f] = f               # field init shorthand `Name { f, … }`
                    if self.at(","):
                        self.eat()
                    elif not self.at("}"):
                        raise TranslateError("struct literal %s: expected , or }" % name)
                self.eat("op", "}")
                if set(given) != set(self.structs[name][1]):
                    raise TranslateError("struct literal %s: missing fields" % name)
                return "(%s %s)" % (self.structs[name][0], " ".join(given[f] for f in self.structs[name][1]))
            if name == "T::from" and self.at("("):
                # `T::from(x)?` with x : T — the identity conversion (never fails); only accepted with the `?`;
                # `T::from(<integer literal>).unwrap()` — the literal as a number of the model (never `None`)
                self.eat()
                if self.peek()[0] == "num" and self.peek(1) == ("op", ")") and self.peek(2) == ("op", ".") \
                        and self.peek(3) == ("id", "unwrap") and self.peek(4) == ("op", "(") and self.peek(5) == ("op", ")"):
                    lit = self.eat()[1]
                    for _ in range(5):
                        self.eat()
                    if "." in lit:
                        raise TranslateError("T::from of a non-integer literal")
                    return "(%s : Rat)" % lit
                e = self.expr()
                self.eat("op", ")")
                self.eat("op", "?")
                return e
            if self.at("("):
                self.eat()
                args = []
                if not self.at(")"):
                    args.append(self.expr())
                    while self.at(","):
                        self.eat()
                        if self.at(")"):
                            break                      # trailing comma
                        args.append(self.expr())
                self.eat("op", ")")
                if name in self.paths and not args:
                    return self.paths[name]
                if name not in self.funcs:
                    raise TranslateError("call of a function outside the whitelist: %s" % name)
                return self.call_template(self.funcs[name], None, args)
            if name in ("true", "false"):
                return name
            if name in self.paths:
                return self.paths[name]
            if "::" in name:
                raise TranslateError("unknown path %s" % name)
            if name in self.arrays and not (self.at("[") or (self.at(".") and self.peek(1) == ("id", "windows"))):
                raise TranslateError("use of the array %s outside the fragment" % name)
            if name in LEAN_KEYWORDS:
                return name + "_"
            return name
        raise TranslateError("unexpected token %s" % (tk,))


def fn_body(src, header_regex):
    m = re.search(header_regex, src, flags=re.S)
    if not m:
        raise TranslateError("function not found: /%s/" % header_regex)
    i = src.index("{", m.end() - 1) if src[m.end() - 1] != "{" else m.end() - 1
    depth, j = 0, i
    while True:
        if src[j] == "{": depth += 1
        elif src[j] == "}":
            depth -= 1
            if depth == 0:
                break
        j += 1
    return src[i:j + 1]


def translate(src, header_regex, paths, funcs, subst, structs=None, resub=()):
    body = fn_body(src, header_regex)
    p = Parser(tokenize(body), paths, funcs, structs)
    term = p.block(True)
    if term.startswith("(let ") or term.startswith("(if "):
        term = term[1:-1]
    if p.peek()[0] != "eof":
        raise TranslateError("trailing tokens after function body")
    for a, b in subst:
        term = re.sub(r"(?<![A-Za-z_0-9.])" + re.escape(a) + r"(?![A-Za-z_0-9])", b, term)
    for a, b in resub:
        term = re.sub(a, b, term)
    if "⟦" in term:
        raise TranslateError("unresolved index expression in %s" % term[:80])
    return term


# ---------------------------------------------------------------------------------------------
# "effect blocks": the body of a `for` loop whose only effects are `<acc> += 1`, `<acc> -= 1` and an early
# `return <X>;` — translated to a Lean expression of type `Option Int` (`none` = early return, `some d` =
# increment of the accumulator for this iteration).

class EffectParser(Parser):
    def __init__(self, toks, paths, funcs, acc):
        super().__init__(toks, paths, funcs)
        self.acc = acc

    def eblock(self, cont):
        """parse `{ stmts }` and return its Lean value given the value `cont` of what follows the block"""
        self.eat("op", "{")
        v = self.estmts(cont)
        self.eat("op", "}")
        return v

    def estmts(self, cont):
        while self.at(";"):
            self.eat()
        if self.at("}"):
            return cont
        if self.at("let"):
            self.eat()
            name = self.eat("id")[1]
            self.eat("op", "=")
            e = self.expr()
            self.eat("op", ";")
            return "(let %s := %s; %s)" % (name, e, self.estmts(cont))
        if self.at("return"):
            self.eat()
            self.expr()
            if self.at(";"):
                self.eat()
            self.skip_rest()
            return "none"
        if self.peek() == ("id", self.acc):
            self.eat()
            op = self.eat("op")[1]
            self.eat("op", "=")
            amount = self.eat("num")[1]
            if op not in ("+", "-"):
                raise TranslateError("unsupported update of the accumulator")
            if self.at(";"):
                self.eat()
            if not self.at("}"):
                raise TranslateError("statements after an accumulator update are outside the fragment")
            return "some (%s%s)" % ("-" if op == "-" else "", amount)
        if self.at("if"):
            # if c {A} [else if d {B}]* [else {C}] ; rest   — the continuation is duplicated into every arm
            save = self.i
            rest_val = None
            # first pass: find the end of the whole if-chain to evaluate `rest` once
            self.skip_if_chain()
            rest_val = self.estmts(cont)
            end = self.i
            self.i = save
            v = self.eif(rest_val)
            self.i = end
            return v
        raise TranslateError("statement outside the effect fragment near %s" % (self.peek(),))

    def eif(self, cont):
        self.eat("id", "if")
        c = self.expr()
        a = self.eblock(cont)
        if self.at("else"):
            self.eat()
            b = self.eif(cont) if self.at("if") else self.eblock(cont)
        else:
            b = cont
        return "(if %s then %s else %s)" % (c, a, b)

    def skip_balanced(self):
        self.eat("op", "{")
        depth = 1
        while depth:
            tk = self.eat()
            if tk == ("op", "{"): depth += 1
            elif tk == ("op", "}"): depth -= 1

    def skip_if_chain(self):
        self.eat("id", "if")
        while not self.at("{"):
            self.eat()
        self.skip_balanced()
        if self.at("else"):
            self.eat()
            if self.at("if"):
                self.skip_if_chain()
            else:
                self.skip_balanced()

    def skip_rest(self):
        depth = 0
        while True:
            tk = self.peek()
            if tk == ("op", "}") and depth == 0:
                return
            if tk == ("op", "{"): depth += 1
            if tk == ("op", "}"): depth -= 1
            self.eat()


def translate_effect_loop(src, loop_regex, paths, funcs, subst, acc):
    """`loop_regex` must match up to and including the `{` that opens the loop body"""
    body = fn_body(src, loop_regex)
    p = EffectParser(tokenize(body), paths, funcs, acc)
    term = p.eblock("some 0")
    for a, b in subst:
        term = re.sub(r"(?<![A-Za-z_0-9.])" + re.escape(a) + r"(?![A-Za-z_0-9])", b, term)
    return term


# ---------------------------------------------------------------------------------------------
# Statement fragment: functions with mutable state (`&mut` accumulator parameters, `let mut` locals), early
# `return`, `if` / `match` statements, `for` loops over lists, state-transforming calls. See the module docstring.

PH = "⟪K⟫"          # "what follows this statement" while the arms of an if / match are being translated


class Env:
    def __init__(self, muts, cont, tail, retraw, ty):
        self.muts = muts        # live mutable variables [(name, Lean type)], in declaration order
        self.cont = cont        # term for "control falls off the end of the block" (None: a value is required)
        self.tail = tail        # value term -> term, for a trailing expression (None: not allowed)
        self.retraw = retraw    # function-result term -> term of the current block's type
        self.ty = ty            # Lean type of the current block's term

    def with_(self, **kw):
        e = Env(self.muts, self.cont, self.tail, self.retraw, self.ty)
        e.brk = getattr(self, "brk", None)
        for k, v in kw.items():
            setattr(e, k, v)
        return e

    def names(self):
        return [n for n, _ in self.muts]


def par(t):
    return "(" + t + ")" if t.startswith("let ") or t.startswith("match ") else t


def proj(s, i, n):
    if n == 1:
        return s
    if i == n - 1:
        return s + ".2" * (n - 1)
    return s + ".2" * i + ".1"


class StmtParser(Parser):
    """opts: muts [(name, type)] (`&mut` parameters), ret_ctor (constructor applied to the `&mut` parameters = result of
    a unit function), ret_type, mut_types {local: type}, state_calls {method: {fn, ctor, proj}}, accessors {method: template},
    arrays {receiver term: [element terms]}, debug_assert ("skip"), unreachable (term)."""

    def __init__(self, toks, paths, funcs, structs=None, opts=None):
        opts = dict(opts or {})
        opts.setdefault("strict", True)
        super().__init__(toks, paths, funcs, structs, opts)
        self.fresh = 0

    def gensym(self, base):
        self.fresh += 1
        return "%s%d" % (base, self.fresh)

    # ---- function level
    def function(self):
        muts = list(self.opts.get("muts", []))
        rho = self.opts.get("ret_type")
        if not rho:
            raise TranslateError("job without ret_type")
        self.fn_both = bool(self.opts.get("ret_both"))     # result = (state built by ret_ctor, value)
        if self.opts.get("ret_ctor") and not self.fn_both:
            self.fn_unit = True
            env = Env(muts, self.unit_value(), None, lambda v: v, rho)
        else:
            # a function with a result; `mut` by-value parameters are plain local mutable variables
            self.fn_unit = False
            env = Env(muts, None, lambda v: self.fn_value(v), lambda v: v, rho)
        term = self.sblock(env)
        if self.peek()[0] != "eof":
            raise TranslateError("trailing tokens after function body")
        return term

    def unit_value(self):
        v = "(%s %s)" % (self.opts["ret_ctor"], " ".join(n for n, _ in self.opts["muts"]))
        return "(some %s)" % v if self.opts.get("option_wrap") else v

    def fn_value(self, v):
        """the function result for `return v;` / `return;`"""
        if self.fn_unit:
            if v is not None:
                raise TranslateError("`return <value>` in a unit function")
            return self.unit_value()
        if v is None:
            raise TranslateError("`return;` in a function with a result")
        if self.fn_both:
            return "(%s, %s)" % (self.unit_value(), v)
        return "(some %s)" % v if self.opts.get("option_wrap") else v

    # ---- blocks
    def sblock(self, env):
        self.eat("op", "{")
        saved = dict(self.minlen)
        t = self.sstmts(env)
        self.eat("op", "}")
        self.minlen = saved
        return t

    def end_of_stmt(self):
        """after a statement without `;` only the end of the block (or of a match arm) may follow"""
        if self.at(";"):
            self.eat()
            return
        if not (self.at("}") or self.at(",")):
            raise TranslateError("expected ; near %s" % (self.peek(),))

    def check_fresh(self, env, names):
        for n in names:
            if n in env.names():
                raise TranslateError("shadowing of the mutable variable %s is outside the fragment" % n)
        self.bound.update(names)

    def sstmts(self, env):
        while self.at(";"):
            self.eat()
        if self.at("}"):
            if env.cont is None:
                raise TranslateError("block ends without a value")
            return env.cont
        if self.at("use"):
            while not self.at(";"):
                self.eat()
            return self.sstmts(env)
        if self.at("debug_assert") or self.at("debug_assert_eq"):
            if self.opts.get("debug_assert") != "skip":
                raise TranslateError("debug_assert! without an explicit choice of the job")
            self.eat()
            a = self.i
            self.skip_macro_args()
            toks = self.t[a + 2:self.i - 1]
            # `debug_assert!(!X.is_empty())`: the source's own claim that X has an element, used as a length guard
            if (len(toks) >= 6 and toks[0] == ("op", "!") and toks[-4:] == [("op", "."), ("id", "is_empty"), ("op", "("), ("op", ")")]):
                sub = Parser(toks[1:-4], self.paths, self.funcs, self.structs, self.opts)
                x = sub.postfix()
                if sub.peek()[0] == "eof":
                    self.minlen[x] = max(self.minlen.get(x, 0), 1)
            return self.sstmts(env)
        if self.at("let"):
            return self.let_stmt(env)
        m = self.mut_method(env)
        if m is not None:
            return m
        if self.at("return"):
            self.eat()
            v = None if (self.at(";") or self.at("}") or self.at(",")) else self.expr()
            self.end_of_stmt()
            if not (self.at("}") or self.at(",")):
                raise TranslateError("statements after `return`")
            return env.retraw(self.fn_value(v))
        if self.at("panic") and self.peek(1) == ("op", "!"):
            # `panic!(…);` ends the function: with the value chosen by the job (a unit function: the current state)
            v = self.panic()
            if self.at(";"):
                self.eat()
            if not (self.at("}") or self.at(",")):
                raise TranslateError("statements after `panic!`")
            return env.retraw(self.unit_value() if self.fn_unit else v)
        if self.at("if"):
            return self.branch_stmt(env, self.skip_if_chain, self.if_chain)
        if self.at("match"):
            return self.branch_stmt(env, self.skip_match, self.match_chain)
        if self.at("while"):
            return self.while_stmt(env)
        if self.at("break") and getattr(env, "brk", None) is not None:
            self.eat()
            self.end_of_stmt()
            if not (self.at("}") or self.at(",")):
                raise TranslateError("statements after `break`")
            return env.brk
        if self.at("for"):
            return self.for_stmt(env)
        a = self.try_assign(env)
        if a is not None:
            name, e = a
            self.end_of_stmt()
            return "let %s := %s\n%s" % (name, e, self.sstmts(env))
        if (self.peek()[0] == "id" and self.peek()[1] in self.arrays and self.peek(1) == ("op", ".")
                and self.peek(2) == ("id", "sort") and self.peek(3) == ("op", "(") and self.peek(4) == ("op", ")")):
            # `arr.sort();` on an array known element by element: the job names the sorting function for that length
            name = self.eat()[1]
            for _ in range(4):
                self.eat()
            self.eat("op", ";")
            elems = self.arrays[name]
            fn = self.opts.get("array_sort", {}).get(len(elems))
            if fn is None:
                raise TranslateError("sort() of an array of length %d without a choice of the job" % len(elems))
            sv = self.gensym(name + "_sorted")
            self.arrays[name] = [proj(sv, i, len(elems)) for i in range(len(elems))]
            return "let %s := (%s %s)\n%s" % (sv, fn, " ".join(elems), self.sstmts(env))
        e = self.expr()
        if e == "⟪STATECALL⟫":
            p, self.pending = self.pending, None
            self.end_of_stmt()
            for m in p["muts"]:
                if m not in env.names():
                    raise TranslateError("state call: %s is not a live mutable variable" % m)
            r = self.gensym("r")
            out = "let %s := (%s %s (%s %s))\n" % (r, p["fn"], " ".join([p["recv"]] + p["args"]), p["ctor"], " ".join(p["muts"]))
            for m, f in zip(p["muts"], p["proj"]):
                out += "let %s := %s.%s\n" % (m, r, f)
            return out + self.sstmts(env)
        if self.at(";"):
            raise TranslateError("expression statement outside the fragment: %s" % e[:60])
        if not (self.at("}") or self.at(",")):
            raise TranslateError("unexpected token after expression: %s" % (self.peek(),))
        if env.tail is None:
            raise TranslateError("trailing expression where no value is expected: %s" % e[:60])
        return env.tail(e)

    def closure_param_call(self, env):
        """`f(&mut X)` with `f` a closure parameter of the function and X a live mutable variable: per job, the closure is a
        function from the old value of X to (new value, result); returns (X, term of the call) or None"""
        fp = self.opts.get("fn_params", {})
        if not (self.peek()[0] == "id" and self.peek()[1] in fp and self.peek(1) == ("op", "(") and self.peek(2) == ("op", "&")
                and self.peek(3) == ("id", "mut") and self.peek(4)[0] == "id" and self.peek(4)[1] in env.names()
                and self.peek(5) == ("op", ")")):
            return None
        f, x = self.peek()[1], self.peek(4)[1]
        for _ in range(6):
            self.eat()
        return f, x

    def self_method(self, env):
        """`self.m(args)` for a job-listed `&mut self` method (`self_methods`: name -> Lean function of the state and the
        arguments) where the state of `self` is the live mutable variable `self_var`: returns the new value of that variable"""
        sm = self.opts.get("self_methods", {})
        sv = self.opts.get("self_var")
        if not (sv and self.peek() == ("id", "self") and self.peek(1) == ("op", ".") and self.peek(2)[0] == "id"
                and self.peek(2)[1] in sm and self.peek(3) == ("op", "(")):
            return None
        if sv not in env.names():
            raise TranslateError("self method call where %s is not live" % sv)
        m = self.peek(2)[1]
        for _ in range(3):
            self.eat()
        args = self.args()
        fn = sm[m]
        self.forget_len(sv)
        return sv, (fn.format(sv, *args) if "{" in fn else "(%s %s)" % (fn, " ".join([sv] + args)))

    def mut_method(self, env):
        """statements that update one live mutable variable in place: `X.push(e);`, `X.m(args);` for a job-listed method,
        `f(&mut X);` for a closure parameter, `self.m(args);` for a job-listed method of `&mut self`"""
        sm = self.self_method(env)
        if sm is not None:
            self.end_of_stmt()
            return "let %s := %s\n%s" % (sm[0], sm[1], self.sstmts(env))
        ix1 = self.opts.get("index1", {}).get(self.peek()[1]) if self.peek()[0] == "id" else None
        if ix1 is not None and ix1["var"] in env.names():
            var = ix1["var"]
            save = self.i
            self.eat()
            if self.at("["):
                # `P[i].m(args);` (m in `mut_methods`: new element from the old one) and `P[i] = e;`
                self.eat()
                i1 = self.expr()
                self.eat("op", "]")
                if self.at("=") :
                    self.eat()
                    val = self.expr()
                elif self.at(".") and self.peek(1)[0] == "id" and self.peek(1)[1] in self.opts.get("mut_methods", {}) and self.peek(2) == ("op", "("):
                    self.eat()
                    m = self.eat()[1]
                    args = self.args()
                    fn = self.opts["mut_methods"][m]
                    old_el = ix1["get"].format(var, i1)
                    val = fn.format(old_el, *args) if "{" in fn else "(%s %s)" % (fn, " ".join([old_el] + args))
                else:
                    self.i = save
                    val = None
                if val is not None:
                    self.end_of_stmt()
                    self.forget_len(var)
                    return "let %s := %s\n%s" % (var, ix1["set"].format(var, i1, val), self.sstmts(env))
            elif (self.at(".") and self.peek(1)[0] == "id" and self.peek(1)[1] in ix1.get("methods", {}) and self.peek(2) == ("op", "(")):
                # `P.m(args);` for a method of the whole place listed by the job (`slice::swap`): template over (variable, args…)
                self.eat()
                m = self.eat()[1]
                args = self.args()
                self.end_of_stmt()
                self.forget_len(var)
                return "let %s := %s\n%s" % (var, ix1["methods"][m].format(var, *args), self.sstmts(env))
            else:
                self.i = save
        if (self.peek() == ("id", "std::mem::swap") and self.peek(1) == ("op", "(") and self.peek(2)[0] == "id"
                and self.peek(3) == ("op", ",") and self.peek(4)[0] == "id" and self.peek(5) == ("op", ")")):
            # `std::mem::swap(a, b);` on two live mutable variables (here: `&mut` bindings of a pattern)
            x, y = self.peek(2)[1], self.peek(4)[1]
            if x not in env.names() or y not in env.names() or x == y:
                raise TranslateError("std::mem::swap on something that is not a pair of live mutable variables")
            for _ in range(6):
                self.eat()
            self.end_of_stmt()
            t = self.gensym("swap")
            return "let %s := %s\nlet %s := %s\nlet %s := %s\n%s" % (t, x, x, y, y, t, self.sstmts(env))
        c = self.closure_param_call(env)
        if c is not None:
            f, x = c
            self.eat("op", ";")
            spec = self.opts["fn_params"][f]
            r = self.gensym("r")
            self.forget_len(x)
            return "let %s := (%s %s)\nlet %s := %s\n%s" % (r, f, x, x, spec["state"].format(r=r, x=x), self.sstmts(env))
        if not (self.peek()[0] == "id" and self.peek()[1] in env.names() and self.peek(1) == ("op", ".")
                and self.peek(2)[0] == "id" and self.peek(3) == ("op", "(")):
            return None
        x, m = self.peek()[1], self.peek(2)[1]
        typ = dict(env.muts)[x]
        if m == "push" and typ.startswith("List "):
            fn = "{0} ++ [{1}]"           # Vec::push = append at the end
        elif m in self.opts.get("mut_methods", {}):
            fn = self.opts["mut_methods"][m]
        else:
            return None
        for _ in range(3):
            self.eat()
        args = self.args()
        self.end_of_stmt()
        self.forget_len(x)
        val = fn.format(x, *args) if "{" in fn else "(%s %s)" % (fn, " ".join([x] + args))
        return "let %s := (%s)\n%s" % (x, val, self.sstmts(env))

    def forget_len(self, x):
        """a mutable variable was updated: length guards that mention it no longer hold"""
        pat = re.compile(r"(?<![A-Za-z_0-9.])" + re.escape(x) + r"(?![A-Za-z_0-9])")
        self.minlen = {k: v for k, v in self.minlen.items() if not pat.search(k)}

    def try_assign(self, env):
        """`[*]x = e`, `[*]x += e` (also - * /) on a live mutable variable"""
        j = self.i
        if self.peek() == ("op", "*"):
            j += 1
        tk = self.t[j] if j < len(self.t) else ("eof", "")
        if tk[0] != "id" or tk[1] not in env.names():
            return None
        nxt = self.t[j + 1] if j + 1 < len(self.t) else ("eof", "")
        nxt2 = self.t[j + 2] if j + 2 < len(self.t) else ("eof", "")
        ix = self.opts.get("index2", {}).get(tk[1])
        if ix and j == self.i and nxt == ("op", "["):
            # `X[a][b] = e` on a job-declared doubly indexed mutable variable: the job's `set` template
            save = self.i
            self.i = j + 1
            idx = []
            for _ in range(2):
                self.eat("op", "[")
                idx.append(self.expr())
                self.eat("op", "]")
            if not self.at("="):
                self.i = save
                return None
            self.eat()
            e = self.expr()
            return tk[1], ix["set"].format(tk[1], idx[0], idx[1], e)
        sv = self.opts.get("struct_vars", {}).get(tk[1])
        if (sv and j == self.i and nxt == ("op", ".") and nxt2[0] == "id" and nxt2[1] in sv
                and j + 3 < len(self.t) and self.t[j + 3] == ("op", "=")):
            # `x.f = e` on a struct-valued mutable variable (job: `struct_vars` x -> {Rust field: Lean field}): a record update
            self.i = j + 4
            e = self.expr()
            return tk[1], "{ %s with %s := %s }" % (tk[1], sv[nxt2[1]], e)
        if nxt == ("op", "="):
            self.i = j + 2
            e = self.expr()
            self.forget_len(tk[1])
            return tk[1], e
        if nxt[0] == "op" and nxt[1] in "+-*/" and nxt2 == ("op", "="):
            self.i = j + 3
            e = self.expr()
            self.forget_len(tk[1])
            return tk[1], "(%s %s %s)" % (tk[1], nxt[1], e)
        return None

    def let_stmt(self, env):
        self.eat("id", "let")
        if self.at("mut"):
            self.eat()
            name = self.eat("id")[1]
            if self.at(":"):
                while not self.at("="):
                    self.eat()
            self.eat("op", "=")
            e = self.expr()
            if e == "⟪ARRAYMAP⟫":
                # a fixed array built element by element; the only mutation accepted afterwards is `name.sort()`
                return self.array_map(env, name)
            self.eat("op", ";")
            typ = self.opts.get("mut_types", {}).get(name) or ("Bool" if e in ("true", "false") else None)
            if typ is None:
                raise TranslateError("`let mut %s` without a type chosen by the job" % name)
            self.check_fresh(env, [name])
            rest = self.sstmts(env.with_(muts=env.muts + [(name, typ)]))
            return "let %s : %s := %s\n%s" % (name, typ, e, rest)
        if self.at("Some"):
            return self.let_else(env)
        if self.at("("):
            self.eat()
            names = [self.eat("id")[1]]
            while self.at(","):
                self.eat(); names.append(self.eat("id")[1])
            self.eat("op", ")")
            pat = "(" + ", ".join(names) + ")"
        else:
            names = [self.eat("id")[1]]
            pat = names[0]
        if self.at(":"):
            while not self.at("="):
                self.eat()
        self.eat("op", "=")
        c = self.closure_param_call(env)
        if c is not None:
            f, x = c
            self.eat("op", ";")
            spec = self.opts["fn_params"][f]
            r = self.gensym("r")
            self.check_fresh(env, names)
            return ("let %s := (%s %s)\nlet %s := %s\nlet %s := %s\n%s"
                    % (r, f, x, pat, spec["value"].format(r=r, x=x), x, spec["state"].format(r=r, x=x), self.sstmts(env)))
        if self.at("match"):
            return self.let_match(env, names, pat)
        e = self.expr()
        if e == "⟪ARRAYMAP⟫":
            if len(names) != 1:
                raise TranslateError("array map bound to a pattern")
            return self.array_map(env, names[0])
        self.eat("op", ";")
        self.check_fresh(env, names)
        return "let %s := %s\n%s" % (pat, e, self.sstmts(env))

    def let_match(self, env, names, pat):
        """`let x = match e { P => return r, …, Q(v) => value };` — arms that `return` leave the function, exactly one arm
        yields the value; the code after the statement is placed inside that arm (names bound by its pattern must not
        occur in that code, checked on the tokens)"""
        self.eat("id", "match")
        scrut = self.expr()
        self.eat("op", "{")
        arms, value_arms, bound_here = [], 0, set()
        mark = "⟪LETMATCH⟫"
        while not self.at("}"):
            pats = self.patterns()
            self.check_fresh(env, self.pat_names)
            bound_here |= self.pat_names
            self.eat("op", "=>")
            if self.at("return"):
                self.eat()
                v = None if (self.at(",") or self.at("}")) else self.expr()
                body = env.retraw(self.fn_value(v))
            elif self.at("unreachable"):
                v = self.unreachable()
                body = env.retraw(self.unit_value() if self.fn_unit else v)
            else:
                v = self.block() if self.at("{") else self.expr()
                body = "let %s := %s\n%s" % (pat, v, mark)
                value_arms += 1
            if self.at(","):
                self.eat()
            arms.append("\n  | %s => %s" % (pats, par(body)))
        self.eat("op", "}")
        self.eat("op", ";")
        if value_arms != 1:
            raise TranslateError("let-match with %d value arms is outside the fragment" % value_arms)
        self.check_fresh(env, names)
        start = self.i
        rest = self.sstmts(env)
        if self.names_in(bound_here - set(names), start, self.i):
            raise TranslateError("a name bound by a pattern of the let-match is used after it")
        return ("(match %s with%s)" % (scrut, "".join(arms))).replace(mark, par(rest))

    def let_else(self, env):
        """`let Some(x) = it.next() else { … return …; };` and `let Some(x) = it.find(|v| pred) else { … };` on a live mutable
        variable `it` that holds a list-backed iterator: `next` takes the head, `find` drops the longest prefix on which the
        predicate fails and takes the head of what is left; the iterator continues behind the element taken"""
        self.eat("id", "Some"); self.eat("op", "(")
        x = self.eat("id")[1]
        self.eat("op", ")"); self.eat("op", "=")
        it = self.eat("id")[1]
        typ = dict(env.muts).get(it)
        if typ is None or not typ.startswith("List "):
            raise TranslateError("let-else on %s, which is not a live list iterator" % it)
        self.eat("op", ".")
        m = self.eat("id")[1]
        self.eat("op", "(")
        if m == "next":
            scrut = it
        elif m == "find":
            self.eat("op", "|")
            v = self.eat("id")[1]
            self.eat("op", "|")
            self.bound.add(v)
            pred = self.expr()
            scrut = "(List.dropWhile (fun %s => !(%s)) %s)" % (v, pred, it)
        else:
            raise TranslateError("iterator method outside the fragment: .%s" % m)
        self.eat("op", ")")
        self.eat("id", "else")
        diverge = "⟪DIVERGE⟫"
        other = self.sblock(env.with_(cont=diverge, tail=None))
        if diverge in other:
            raise TranslateError("the else block of let-else must not fall through")
        self.eat("op", ";")
        self.check_fresh(env, [x])
        rest = self.sstmts(env)
        return "(match %s with\n  | [] => %s\n  | %s :: %s => %s)" % (scrut, par(other), x, it, par(rest))

    def array_map(self, env, name):
        """`let name = ARR.map(|x| { …; value });` on a fixed array: the closure body is unrolled element by element, in order;
        assignments to captured mutable variables flow from one copy to the next"""
        p, self.pending = self.pending, None
        self.eat("op", ";")
        after = self.i
        before = set(self.bound)
        self.i = p["start"]
        self.eat("op", "|")
        if self.at("&"):
            self.eat()
        x = self.eat("id")[1]
        self.eat("op", "|")
        body_start = self.i
        self.check_fresh(env, [x, name])
        copies = []
        names = []

        def no_return(v):
            raise TranslateError("`return` inside a closure")
        for j, elem in enumerate(p["array"]):
            self.i = body_start
            nj = "%s_%d" % (name, j)
            names.append(nj)
            mark = "⟪N%d⟫" % j
            envj = env.with_(cont=None, tail=(lambda v, nj=nj, mark=mark: "let %s := %s\n%s" % (nj, v, mark)), retraw=no_return)
            body = self.sblock(envj) if self.at("{") else envj.tail(self.expr())
            if self.i != p["end"] - 1:
                raise TranslateError("closure body not consumed")
            if body.count(mark) != 1:
                raise TranslateError("closure body with more than one exit")
            copies.append((mark, "let %s := %s\n%s" % (x, elem, body)))
        self.i = after
        local = (self.bound - before) - {name}
        if self.names_in(local, after, len(self.t)):
            raise TranslateError("a name bound in the unrolled closure is used after it")
        self.arrays[name] = names
        rest = self.sstmts(env)
        term = rest
        for mark, c in reversed(copies):
            term = c.replace(mark, term)
        return term

    def names_in(self, names, a, b):
        return any(tk[0] == "id" and tk[1] in names for tk in self.t[a:b])

    # ---- if / match statements
    def skip_balanced(self):
        self.eat("op", "{")
        depth = 1
        while depth:
            tk = self.eat()
            if tk[0] == "eof":
                raise TranslateError("unbalanced block")
            if tk == ("op", "{"): depth += 1
            elif tk == ("op", "}"): depth -= 1

    def skip_to_block(self):
        depth = 0
        while not (depth == 0 and self.at("{")):
            tk = self.eat()
            if tk[0] == "eof":
                raise TranslateError("block expected")
            if tk[1] in ("(", "[") and tk[0] == "op": depth += 1
            elif tk[1] in (")", "]") and tk[0] == "op": depth -= 1

    def skip_if_chain(self):
        self.eat("id", "if")
        self.skip_to_block()
        self.skip_balanced()
        if self.at("else"):
            self.eat()
            if self.at("if"):
                self.skip_if_chain()
            else:
                self.skip_balanced()

    def skip_match(self):
        self.eat("id", "match")
        self.skip_to_block()
        self.skip_balanced()

    def branch_stmt(self, env, skip, chain):
        start = self.i
        skip()
        while self.at(";"):
            self.eat()
        is_tail = self.at("}") or self.at(",")
        self.i = start
        if is_tail:
            term = chain(env)
            while self.at(";"):
                self.eat()
            return term
        before = set(self.bound)
        term, facts = chain(env.with_(cont=PH, tail=None)), self.rest_facts
        while self.at(";"):
            self.eat()
        local = self.bound - before
        rest_start = self.i
        self.minlen.update(facts)
        rest = self.sstmts(env)
        n = term.count(PH)
        if n == 0:
            raise TranslateError("statements after a branch that never falls through")
        if n == 1 and not self.names_in(local, rest_start, self.i):
            return term.replace(PH, par(rest))
        # join point: the rest becomes a local function of the live mutable variables
        k = self.gensym("k")
        params = " ".join("(%s : %s)" % m for m in env.muts) or "(_ : Unit)"
        args = " ".join(env.names()) or "()"
        return "let %s := fun %s => (%s : %s)\n%s" % (k, params, rest, env.ty, term.replace(PH, "(%s %s)" % (k, args)))

    LEN_EQ = re.compile(r"^\((.+)\.length == (\d+)\)$")
    LEN_LT = re.compile(r"^\(decide \((.+)\.length < (\d+)\)\)$")
    EMPTY = re.compile(r"^(.+)\.isEmpty$")

    def len_facts(self, c):
        """(facts inside the then-branch, facts after the `if` when the then-branch never falls through)"""
        m = self.LEN_EQ.match(c)
        if m:
            return {m.group(1): int(m.group(2))}, {}
        m = self.LEN_LT.match(c)
        if m:
            return {}, {m.group(1): int(m.group(2))}
        m = self.EMPTY.match(c)
        if m:
            return {}, {m.group(1): 1}
        return {}, {}

    def if_let(self, env):
        """`if let <pattern> = <expr> { … } [else { … }]` (pattern: Some / None / tuple / variant patterns, no guards)"""
        self.eat("id", "let")
        pat, names, _ = self.one_alternative()
        self.check_fresh(env, names)
        self.bound.update(names)
        self.eat("op", "=")
        scrut = self.expr()
        a = self.sblock(env)
        if self.at("else"):
            self.eat()
            b = self.if_chain(env) if self.at("if") else self.sblock(env)
        else:
            if env.cont is None:
                raise TranslateError("`if let` without `else` where a value is required")
            b = env.cont
        self.rest_facts = {}
        return "(match %s with\n  | %s => %s\n  | _ => %s)" % (scrut, pat, par(a), par(b))

    def if_chain(self, env):
        self.rest_facts = {}
        self.eat("id", "if")
        if self.at("let"):
            return self.if_let(env)
        c = self.expr()
        inside, after = self.len_facts(c)
        saved = dict(self.minlen)
        self.minlen.update(inside)
        a = self.sblock(env)
        self.minlen = saved
        if self.at("else"):
            self.eat()
            b = self.if_chain(env) if self.at("if") else self.sblock(env)
            self.rest_facts = {}
        else:
            if env.cont is None:
                raise TranslateError("`if` without `else` where a value is required")
            b = env.cont
            self.rest_facts = after if (env.cont == PH and PH not in a) else {}
        return "(if %s then %s else %s)" % (c, par(a), par(b))

    def match_as_mut(self, env):
        """`match X.as_mut() { Some(v) => v.m(args), None => X = e, }` on a live mutable variable X : Option τ, `m` a job-listed
        `mut_methods` entry (a function of the old payload and the arguments giving the new payload): the `Some` arm updates
        the payload in place through the alias `v`, the `None` arm assigns X. Arms in either order, nothing else."""
        x = self.peek(1)[1]
        for _ in range(6):
            self.eat()
        self.eat("op", "{")
        some_arm = none_arm = None
        while not self.at("}"):
            if self.at("Some"):
                self.eat(); self.eat("op", "(")
                v = self.eat("id")[1]
                self.eat("op", ")"); self.eat("op", "=>")
                self.check_fresh(env, [v])
                self.eat("id", v); self.eat("op", ".")
                m = self.eat("id")[1]
                if m not in self.opts.get("mut_methods", {}):
                    raise TranslateError("method on a mutable alias outside the whitelist: .%s" % m)
                args = self.args()
                fn = self.opts["mut_methods"][m]
                val = fn.format(v, *args) if "{" in fn else "(%s %s)" % (fn, " ".join([v] + args))
                some_arm = "\n  | some %s => (let %s := some %s\n%s)" % (v, x, val, env.cont)
            elif self.at("None"):
                self.eat(); self.eat("op", "=>")
                a = self.try_assign(env)
                if a is None or a[0] != x:
                    raise TranslateError("the None arm of match %s.as_mut() must assign %s" % (x, x))
                none_arm = "\n  | none => (let %s := %s\n%s)" % (x, a[1], env.cont)
            else:
                raise TranslateError("match on as_mut(): arm outside the fragment")
            if self.at(","):
                self.eat()
        self.eat("op", "}")
        self.rest_facts = {}
        if some_arm is None or none_arm is None or env.cont is None:
            raise TranslateError("match on as_mut() outside the fragment")
        self.forget_len(x)
        return "(match %s with%s%s)" % (x, some_arm, none_arm)

    def match_chain(self, env):
        if (self.peek(1)[0] == "id" and self.peek(1)[1] in env.names() and self.peek(2) == ("op", ".")
                and self.peek(3) == ("id", "as_mut") and self.peek(4) == ("op", "(") and self.peek(5) == ("op", ")")
                and self.peek(6) == ("op", "{")):
            return self.match_as_mut(env)
        self.eat("id", "match")
        scrut = self.expr()
        self.eat("op", "{")
        # a live mutable enum-valued variable matched by `&mut` (job: `enum_vars`), alone or as last component of a tuple:
        # struct-variant patterns then bind its fields as mutable variables of the arm and the arm ends by rebuilding it
        ev = None
        for v in self.opts.get("enum_vars", ()):
            if v in env.names() and (scrut == v or re.match(r"^\(.*, %s\)$" % re.escape(v), scrut)):
                ev = v
        arms = []
        while not self.at("}"):
            self.patterns()
            alts = self.pat_alts
            self.check_fresh(env, self.pat_names)
            self.eat("op", "=>")
            body_start = self.i
            rebuild = ev is not None and any(a[2] for a in alts)
            groups = [[a] for a in alts] if rebuild else [alts]      # an arm that rebuilds is written once per alternative
            for g in groups:
                self.i = body_start
                aenv = env
                if rebuild:
                    if len(g[0][2]) != 1:
                        raise TranslateError("an arm on %s with %d struct patterns" % (ev, len(g[0][2])))
                    ctor, fields, leans, bound = g[0][2][0]
                    ftypes = self.opts.get("field_types", {})
                    for f in bound:
                        if f not in ftypes:
                            raise TranslateError("field %s without a type chosen by the job" % f)
                    cont = None if env.cont is None else "let %s := (%s %s)\n%s" % (ev, ctor, " ".join(leans), env.cont)
                    aenv = env.with_(muts=env.muts + [(f, ftypes[f]) for f in bound], cont=cont)
                if self.at("unreachable"):
                    # a diverging arm: modelled as `return <value chosen by the job>` (for a unit function: the current state)
                    v = self.unreachable()
                    body = env.retraw(self.unit_value() if self.fn_unit else v)
                elif self.at("panic") and self.peek(1) == ("op", "!"):
                    v = self.panic()
                    body = env.retraw(self.unit_value() if self.fn_unit else v)
                elif self.at("{"):
                    body = self.sblock(aenv)
                else:
                    body = self.arm_stmt(aenv)
                arms.append("\n  | %s => %s" % (" | ".join(a[0] for a in g), par(body)))
            if self.at(","):
                self.eat()
        self.eat("op", "}")
        self.rest_facts = {}
        if not arms:
            raise TranslateError("empty match")
        if self.opts.get("rank_match_default") and self.fn_unit and not any(a.startswith("\n  | _ =>") for a in arms):
            # the job encodes an enum by its rank (a `Nat`): Rust's exhaustive match over the variants needs a catch-all arm
            # in Lean; it is dead code (every rank is one of the listed numerals) and leaves the state unchanged
            arms.append("\n  | _ => %s" % env.retraw(self.unit_value()))
        return "(match %s with%s)" % (scrut, "".join(arms))

    def arm_stmt(self, env):
        """a match arm without braces: one statement or a value, up to the `,`"""
        if self.at("return"):
            self.eat()
            v = None if (self.at(",") or self.at("}")) else self.expr()
            return env.retraw(self.fn_value(v))
        a = self.self_method(env) or self.try_assign(env)
        if a is not None:
            if env.cont is None:
                raise TranslateError("assignment arm where a value is required")
            return "(let %s := %s\n%s)" % (a[0], a[1], env.cont)
        e = self.expr()
        if env.tail is None:
            raise TranslateError("value arm where no value is expected: %s" % e[:60])
        return env.tail(e)

    # ---- loops
    def while_stmt(self, env):
        """`while cond { body }` with `break` / `return` in the body: `Gen.whileFuel FUEL cond body σ` over the live mutable
        variables σ, FUEL = the job's `while_fuel` expression over them (an upper bound of the number of iterations that the
        job claims; when it is exhausted the whole function answers `none` — the job must set `option_wrap`, every normal
        result is `some …` — so a wrong bound cannot produce a wrong value, and the tie theorem shows `none` never occurs)"""
        if not self.opts.get("option_wrap") or "while_fuel" not in self.opts:
            raise TranslateError("`while` needs the job options while_fuel and option_wrap")
        self.eat("id", "while")
        c = self.expr()
        names = env.names()
        n = len(names)
        if n == 0:
            raise TranslateError("`while` without mutable state")
        sigma = " × ".join(t for _, t in env.muts)
        tup = "(" + ", ".join(names) + ")" if n != 1 else names[0]
        s = self.gensym("w")

        def unpack(sv):
            return "".join("let %s := %s\n" % (nm, proj(sv, i, n)) for i, nm in enumerate(names))
        rho = self.opts["ret_type"]
        benv = Env(env.muts, "(Gen.WStep.cont %s)" % tup, None, lambda v: "(Gen.WStep.ret %s)" % v,
                   "Gen.WStep (%s) (%s)" % (sigma, rho))
        benv.brk = "(Gen.WStep.brk %s)" % tup
        body = self.sblock(benv)
        rest = self.sstmts(env)
        r = self.gensym("r")
        return ("(match Gen.whileFuel (σ := %s) (ρ := %s) (%s) (fun (%s : %s) =>\n%s%s) (fun (%s : %s) =>\n%s%s) %s with\n"
                "  | none => none\n  | some (.ret %s) => %s\n  | some (.next %s) =>\n%s%s)"
                % (sigma, rho, self.opts["while_fuel"], s, sigma, unpack(s), c, s, sigma, unpack(s), body, tup,
                   r, env.retraw(r), s, unpack(s), rest))

    def for_stmt(self, env):
        self.eat("id", "for")
        if self.at("&"):
            self.eat()
        unpack_x = ""
        if self.at("("):
            # `for (i, x) in …`: the element is a pair, its components are bound at the head of the body
            self.eat()
            comps = [self.eat("id")[1]]
            while self.at(","):
                self.eat(); comps.append(self.eat("id")[1])
            self.eat("op", ")")
            self.check_fresh(env, comps)
            x = self.gensym("elem")
            unpack_x = "".join("let %s := %s\n" % (c, proj(x, i, len(comps))) for i, c in enumerate(comps))
        else:
            x = self.eat("id")[1]
        self.eat("id", "in")
        if (self.at("&") and self.peek(1) == ("id", "mut") and self.peek(2)[0] == "id" and self.peek(2)[1] in env.names()
                and self.peek(3) == ("op", "{")):
            # `for x in &mut C { … }`: the body updates the element in place (and nothing else): C := C.map (x ↦ body x)
            self.eat(); self.eat()
            c = self.eat("id")[1]
            ctyp = dict(env.muts)[c]
            if not ctyp.startswith("List "):
                raise TranslateError("`for … in &mut %s` on a non-list" % c)
            etyp = ctyp[5:].strip()
            if etyp.startswith("(") and etyp.endswith(")"):
                etyp = etyp[1:-1]
            self.check_fresh(env, [x])

            def no_return(v):
                raise TranslateError("`return` inside an in-place loop")
            body = self.sblock(Env([(x, etyp)], x, None, no_return, etyp))
            return "let %s := List.map (fun (%s : %s) => %s) %s\n%s" % (c, x, etyp, par(body), c, self.sstmts(env))
        it = self.expr()
        self.check_fresh(env, [x])
        # does the body return from the function?
        j = self.i
        save = self.i
        self.skip_balanced()
        body_toks = self.t[save:self.i]
        self.i = save
        has_ret = ("id", "return") in body_toks
        names = env.names()
        n = len(names)
        sigma = " × ".join(t for _, t in env.muts) or "Unit"
        tup = "(" + ", ".join(names) + ")" if n != 1 else names[0]
        if n == 0:
            tup = "()"
        s = self.gensym("s")

        def unpack(sv, head=True):
            return "".join("let %s := %s\n" % (nm, proj(sv, i, n)) for i, nm in enumerate(names)) + (unpack_x if head else "")
        rho = self.opts["ret_type"]
        if has_ret:
            ty = "Gen.Step (%s) (%s)" % (sigma, rho)
            benv = Env(env.muts, "(Gen.Step.next %s)" % tup, None, lambda v: "(Gen.Step.ret %s)" % v, ty)
        else:
            benv = Env(env.muts, tup, None, None, "(%s)" % sigma)
        body = self.sblock(benv)
        rest = self.sstmts(env)
        if has_ret:
            r = self.gensym("r")
            return ("(match Gen.loop (σ := %s) (ρ := %s) %s (fun %s (%s : %s) =>\n%s%s) %s with\n  | .ret %s => %s\n  | .next %s =>\n%s%s)"
                    % (sigma, rho, it, x, s, sigma, unpack(s), body, tup, r, env.retraw(r), s, unpack(s, False), rest))
        return ("let %s := (List.foldl (fun (%s : %s) %s =>\n%s%s) %s %s)\n%s%s"
                % (s, s, sigma, x, unpack(s), body, tup, it, unpack(s, False), rest))


def apply_subst(term, subst, resub):
    for a, b in subst:
        term = re.sub(r"(?<![A-Za-z_0-9.])" + re.escape(a) + r"(?![A-Za-z_0-9])", b, term)
    for a, b in resub:
        term = re.sub(a, b, term)
    if "⟦" in term or "⟪" in term:
        raise TranslateError("unresolved form in %s" % term[max(0, term.find("⟪") - 20):][:80])
    return term


def indent(term, n=2):
    return "\n".join(" " * n + l.strip() if l.strip() else l for l in term.splitlines())


def translate_fn(src, header_regex, paths, funcs, subst, structs=None, resub=(), opts=None):
    """a whole function of the statement fragment"""
    body = fn_body(src, header_regex)
    toks = tokenize(body)
    # `places`: a field of `&mut self` that the function updates is one mutable variable, e.g. `self.exterior` -> `self_exterior`
    for place, var in (opts or {}).get("places", {}).items():
        pt = tokenize(place)
        out, i = [], 0
        while i < len(toks):
            if toks[i:i + len(pt)] == pt:
                out.append(("id", var)); i += len(pt)
            else:
                out.append(toks[i]); i += 1
        toks = out
    p = StmtParser(toks, paths, funcs, structs, opts)
    term = p.function()
    return indent(apply_subst(term, subst, resub))


def translate_expr_after(src, header_regex, paths, funcs, subst, structs=None, resub=(), opts=None):
    """the pure expression that follows the text matched by `header_regex` (e.g. the body of a closure bound by
    `let cmp = |q, r| <expr>;`), up to the `;` or `,` that ends it at bracket depth 0"""
    m = re.search(header_regex, src, flags=re.S)
    if not m:
        raise TranslateError("expression not found: /%s/" % header_regex)
    depth, j = 0, m.end()
    while j < len(src):
        c = src[j]
        if c in "({[":
            depth += 1
        elif c in ")}]":
            depth -= 1
            if depth < 0:
                break
        elif c in ";," and depth == 0:
            break
        j += 1
    else:
        raise TranslateError("unterminated expression after /%s/" % header_regex)
    o = dict(opts or {})
    o.setdefault("strict", True)
    p = Parser(tokenize(src[m.end():j]), paths, funcs, structs, o)
    term = p.expr(True)
    if p.peek()[0] != "eof":
        raise TranslateError("trailing tokens after the expression: %s" % (p.peek(),))
    return indent(apply_subst(term, subst, resub))


def array_literal(src, header_regex, paths, funcs, structs=None):
    """a function whose body is one fixed-length array literal: the list of its element terms (before substitutions)"""
    body = fn_body(src, header_regex)
    p = Parser(tokenize(body), paths, funcs, structs)
    p.eat("op", "{"); p.eat("op", "[")
    items = []
    while not p.at("]"):
        items.append(p.expr())
        if p.at(","):
            p.eat()
    p.eat("op", "]"); p.eat("op", "}")
    if p.peek()[0] != "eof" or not items:
        raise TranslateError("not a single array literal")
    return items
