"""
rsexpr.py — a translator for a small, pure fragment of Rust into Lean 4 (engine E2).

Accepted fragment (anything else makes the translator fail, which ./check treats as a broken
obligation): a function whose body is a block of
    let <ident | (a, b)> = <expr>;        if <expr> { return <expr>; }        return <expr>;
followed by a final expression; expressions are built from identifiers, integer / bool literals,
paths (`Orientation::Collinear`, `T::zero()`, `Zero::zero()`), field access, no-argument method
calls (`self.min()`, treated like fields), calls of whitelisted functions, tuples, unary `!`, `-`,
`*` (deref, ignored), `&` (ignored), binary `|| && == != < <= > >= + - * /`, parentheses,
`if … { … } else if … { … } else { … }`, fixed-length array literals (→ tuples), constant indexing
`e[0][1]` (resolved by the caller's substitution table, an unresolved index is an error), struct literals
of whitelisted structs with all fields in declaration order (also through the `coord!` macro), and `T::from(x)?` with `x : T` (identity).

Numbers become `Rat`, comparisons `decide (…)`, so that the result is a computable Lean term which
can be compared (`rfl` / `simp`) with the hand-written model.
"""
import re


class TranslateError(Exception):
    pass


TOK = re.compile(r"\s*(?:(\d+\.\d+|\d+)|([A-Za-z_][A-Za-z_0-9]*(?:::[A-Za-z_][A-Za-z_0-9]*)*)|(\|\||&&|==|!=|<=|>=|->|=>|[-+*/!<>=(){},;.&:\[\]?]))")


def tokenize(src):
    toks, i = [], 0
    src = src.strip()
    while i < len(src):
        m = TOK.match(src, i)
        if not m or m.end() == i:
            if src[i:].strip() == "":
                break
            raise TranslateError("cannot tokenize near %r" % src[i:i + 40])
        if m.group(1):
            toks.append(("num", m.group(1)))
        elif m.group(2):
            toks.append(("id", m.group(2)))
        else:
            toks.append(("op", m.group(3)))
        i = m.end()
    return toks


class Parser:
    def __init__(self, toks, paths, funcs, structs=None):
        self.t, self.i, self.paths, self.funcs = toks, 0, paths, funcs
        self.structs = structs or {}

    def peek(self, k=0):
        return self.t[self.i + k] if self.i + k < len(self.t) else ("eof", "")

    def eat(self, kind=None, val=None):
        tk = self.peek()
        if (kind and tk[0] != kind) or (val is not None and tk[1] != val):
            raise TranslateError("expected %s %s, found %s" % (kind, val, tk))
        self.i += 1
        return tk

    def at(self, val):
        return self.peek()[1] == val and self.peek()[0] in ("op", "id")

    # ---- blocks and statements -> Lean term
    def block(self):
        self.eat("op", "{")
        term = self.stmts()
        self.eat("op", "}")
        return "(" + term + ")" if term.startswith("let ") or term.startswith("if ") else term

    def stmts(self):
        if self.at("let"):
            self.eat()
            if self.at("mut"):
                raise TranslateError("`let mut` is outside the fragment")
            if self.at("("):
                self.eat()
                names = [self.eat("id")[1]]
                while self.at(","):
                    self.eat(); names.append(self.eat("id")[1])
                self.eat("op", ")")
                pat = "(" + ", ".join(names) + ")"
            else:
                pat = self.eat("id")[1]
            if self.at(":"):          # type ascription
                self.eat()
                while not self.at("="):
                    self.eat()
            self.eat("op", "=")
            e = self.expr()
            self.eat("op", ";")
            return "let %s := %s\n  %s" % (pat, e, self.stmts())
        if self.at("return"):
            self.eat()
            e = self.expr()
            if self.at(";"):
                self.eat()
            return e
        if self.at("if"):
            # statement `if c { return e; }` followed by more, or a final if-expression
            save = self.i
            self.eat()
            c = self.expr()
            body = self.block()
            if self.at("else"):
                self.i = save
                e = self.expr()
                return e
            if self.at("}"):
                raise TranslateError("`if` without else as final expression")
            rest = self.stmts()
            return "if %s then %s else\n  %s" % (c, body, rest)
        e = self.expr()
        return e

    # ---- expressions
    def expr(self):
        if self.at("if"):
            self.eat()
            c = self.expr()
            a = self.block()
            self.eat("id", "else")
            b = self.expr() if self.at("if") else self.block()
            return "(if %s then %s else %s)" % (c, a, b)
        return self.binary(0)

    LEVELS = [["||"], ["&&"], ["==", "!=", "<", "<=", ">", ">="], ["+", "-"], ["*", "/"]]

    def binary(self, lvl):
        if lvl == len(self.LEVELS):
            return self.unary()
        lhs = self.binary(lvl + 1)
        while self.peek()[0] == "op" and self.peek()[1] in self.LEVELS[lvl]:
            op = self.eat()[1]
            rhs = self.binary(lvl + 1)
            if op in ("<", "<=", ">", ">="):
                lhs = "decide (%s %s %s)" % (lhs, {"<=": "≤", ">=": "≥"}.get(op, op), rhs)
                lhs = "(" + lhs + ")"
            else:
                lhs = "(%s %s %s)" % (lhs, op, rhs)
        return lhs

    def unary(self):
        if self.at("!"):
            self.eat(); return "(!%s)" % self.unary()
        if self.at("-"):
            self.eat(); return "(-%s)" % self.unary()
        if self.at("*") or self.at("&"):
            self.eat(); return self.unary()
        return self.postfix()

    def postfix(self):
        e = self.primary()
        while True:
            if self.at("."):
                self.eat()
                tk = self.eat()
                name = tk[1]
                if tk[0] == "num":
                    name = str(int(name) + 1)      # tuple projection .0 -> .1
                if self.at("("):
                    self.eat("op", "(")
                    if self.at(")"):
                        self.eat("op", ")")                     # no-argument method = accessor
                        e = "%s.%s" % (e, name)
                    else:
                        args = [self.expr()]
                        while self.at(","):
                            self.eat(); args.append(self.expr())
                        self.eat("op", ")")
                        if "." + name not in self.funcs:
                            raise TranslateError("method call outside the whitelist: .%s" % name)
                        e = "(%s %s %s)" % (self.funcs["." + name], e, " ".join(args))
                else:
                    e = "%s.%s" % (e, name)
            elif self.at("["):
                self.eat()
                n = self.eat("num")[1]
                self.eat("op", "]")
                e = "%s⟦%s⟧" % (e, n)          # constant index; resolved by the caller's substitutions
            elif self.at("as"):
                self.eat(); self.eat("id")
            else:
                return e

    def primary(self):
        tk = self.peek()
        if tk[0] == "num":
            self.eat(); return tk[1]
        if tk == ("op", "("):
            self.eat()
            items = [self.expr()]
            while self.at(","):
                self.eat(); items.append(self.expr())
            self.eat("op", ")")
            return "(" + ", ".join(items) + ")"
        if tk == ("op", "{"):
            return "(" + self.block() + ")"
        if tk == ("op", "["):
            # array literal of fixed length -> tuple
            self.eat()
            items = [self.expr()]
            while self.at(","):
                self.eat()
                if self.at("]"):
                    break
                items.append(self.expr())
            self.eat("op", "]")
            return "(" + ", ".join(items) + ")"
        if tk[0] == "id":
            self.eat()
            name = tk[1]
            if name == "coord" and self.at("!"):
                # the `coord! { x: e, y: e }` macro = the struct literal `Coord { x: e, y: e }`
                self.eat()
                name = "Coord"
                if "Coord" not in self.structs or not self.at("{"):
                    raise TranslateError("coord! outside the fragment")
            if name in self.structs and self.at("{"):
                # struct literal `Name { f: e, … }`: fields must come in the declared order
                self.eat()
                vals = []
                for f in self.structs[name][1]:
                    self.eat("id", f); self.eat("op", ":")
                    vals.append(self.expr())
                    if self.at(","):
                        self.eat()
                self.eat("op", "}")
                return "(%s %s)" % (self.structs[name][0], " ".join(vals))
            if name == "T::from" and self.at("("):
                # `T::from(x)?` with x : T — the identity conversion (never fails); only accepted with the `?`
                self.eat()
                e = self.expr()
                self.eat("op", ")")
                self.eat("op", "?")
                return e
            if self.at("("):
                self.eat()
                args = []
                if not self.at(")"):
                    args.append(self.expr())
                    while self.at(","):
                        self.eat()
                        if self.at(")"):
                            break                      # trailing comma
                        args.append(self.expr())
                self.eat("op", ")")
                if name in self.paths and not args:
                    return self.paths[name]
                if name not in self.funcs:
                    raise TranslateError("call of a function outside the whitelist: %s" % name)
                return "(%s %s)" % (self.funcs[name], " ".join(args))
            if name in ("true", "false"):
                return name
            if name in self.paths:
                return self.paths[name]
            if "::" in name:
                raise TranslateError("unknown path %s" % name)
            return name
        raise TranslateError("unexpected token %s" % (tk,))


def fn_body(src, header_regex):
    m = re.search(header_regex, src, flags=re.S)
    if not m:
        raise TranslateError("function not found: /%s/" % header_regex)
    i = src.index("{", m.end() - 1) if src[m.end() - 1] != "{" else m.end() - 1
    depth, j = 0, i
    while True:
        if src[j] == "{": depth += 1
        elif src[j] == "}":
            depth -= 1
            if depth == 0:
                break
        j += 1
    return src[i:j + 1]


def translate(src, header_regex, paths, funcs, subst, structs=None, resub=()):
    body = fn_body(src, header_regex)
    p = Parser(tokenize(body), paths, funcs, structs)
    term = p.block()
    if term.startswith("(let ") or term.startswith("(if "):
        term = term[1:-1]
    if p.peek()[0] != "eof":
        raise TranslateError("trailing tokens after function body")
    for a, b in subst:
        term = re.sub(r"(?<![A-Za-z_0-9.])" + re.escape(a) + r"(?![A-Za-z_0-9])", b, term)
    for a, b in resub:
        term = re.sub(a, b, term)
    if "⟦" in term:
        raise TranslateError("unresolved index expression in %s" % term[:80])
    return term


# ---------------------------------------------------------------------------------------------
# "effect blocks": the body of a `for` loop whose only effects are `<acc> += 1`, `<acc> -= 1` and an early
# `return <X>;` — translated to a Lean expression of type `Option Int` (`none` = early return, `some d` =
# increment of the accumulator for this iteration).

class EffectParser(Parser):
    def __init__(self, toks, paths, funcs, acc):
        super().__init__(toks, paths, funcs)
        self.acc = acc

    def eblock(self, cont):
        """parse `{ stmts }` and return its Lean value given the value `cont` of what follows the block"""
        self.eat("op", "{")
        v = self.estmts(cont)
        self.eat("op", "}")
        return v

    def estmts(self, cont):
        while self.at(";"):
            self.eat()
        if self.at("}"):
            return cont
        if self.at("let"):
            self.eat()
            name = self.eat("id")[1]
            self.eat("op", "=")
            e = self.expr()
            self.eat("op", ";")
            return "(let %s := %s; %s)" % (name, e, self.estmts(cont))
        if self.at("return"):
            self.eat()
            self.expr()
            if self.at(";"):
                self.eat()
            self.skip_rest()
            return "none"
        if self.peek() == ("id", self.acc):
            self.eat()
            op = self.eat("op")[1]
            self.eat("op", "=")
            amount = self.eat("num")[1]
            if op not in ("+", "-"):
                raise TranslateError("unsupported update of the accumulator")
            if self.at(";"):
                self.eat()
            if not self.at("}"):
                raise TranslateError("statements after an accumulator update are outside the fragment")
            return "some (%s%s)" % ("-" if op == "-" else "", amount)
        if self.at("if"):
            # if c {A} [else if d {B}]* [else {C}] ; rest   — the continuation is duplicated into every arm
            save = self.i
            rest_val = None
            # first pass: find the end of the whole if-chain to evaluate `rest` once
            self.skip_if_chain()
            rest_val = self.estmts(cont)
            end = self.i
            self.i = save
            v = self.eif(rest_val)
            self.i = end
            return v
        raise TranslateError("statement outside the effect fragment near %s" % (self.peek(),))

    def eif(self, cont):
        self.eat("id", "if")
        c = self.expr()
        a = self.eblock(cont)
        if self.at("else"):
            self.eat()
            b = self.eif(cont) if self.at("if") else self.eblock(cont)
        else:
            b = cont
        return "(if %s then %s else %s)" % (c, a, b)

    def skip_balanced(self):
        self.eat("op", "{")
        depth = 1
        while depth:
            tk = self.eat()
            if tk == ("op", "{"): depth += 1
            elif tk == ("op", "}"): depth -= 1

    def skip_if_chain(self):
        self.eat("id", "if")
        while not self.at("{"):
            self.eat()
        self.skip_balanced()
        if self.at("else"):
            self.eat()
            if self.at("if"):
                self.skip_if_chain()
            else:
                self.skip_balanced()

    def skip_rest(self):
        depth = 0
        while True:
            tk = self.peek()
            if tk == ("op", "}") and depth == 0:
                return
            if tk == ("op", "{"): depth += 1
            if tk == ("op", "}"): depth -= 1
            self.eat()


def translate_effect_loop(src, loop_regex, paths, funcs, subst, acc):
    """`loop_regex` must match up to and including the `{` that opens the loop body"""
    body = fn_body(src, loop_regex)
    p = EffectParser(tokenize(body), paths, funcs, acc)
    term = p.eblock("some 0")
    for a, b in subst:
        term = re.sub(r"(?<![A-Za-z_0-9.])" + re.escape(a) + r"(?![A-Za-z_0-9])", b, term)
    return term
