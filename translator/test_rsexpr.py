#!/usr/bin/env python3
"""Self-test of the statement fragment: snippets that must translate and snippets that must be rejected
(`python3 translator/test_rsexpr.py`, exit code 0 = all as expected)."""
import os, sys
sys.path.insert(0, os.path.dirname(os.path.abspath(__file__)))
import rsexpr

ACC = {"muts": [("is_inside", "Bool"), ("boundary_count", "Nat")], "ret_ctor": "PosAcc.mk", "ret_type": "PosAcc",
       "accessors": {"len": "{}.length", "is_empty": "{}.isEmpty"}}
VAL = {"ret_type": "Rat", "accessors": {"len": "{}.length", "is_empty": "{}.isEmpty"}, "mut_types": {"t": "Rat"}}

def tr(body, opts, funcs=None):
    opts = dict(opts)
    paths = dict({"T::zero": "0"}, **opts.pop("paths", {}))
    return rsexpr.translate_fn("fn f() " + body, r"fn f\(\) \{", paths, funcs or {}, [], opts=opts)

ENUM = {"muts": [("self_", "T")], "ret_ctor": "id", "ret_type": "T", "places": {"self": "self_"}, "enum_vars": ["self_"],
        "variants": {"Self::A": ("T.a", ["on", "left"]), "Self::B": ("T.b", ["on"])}, "field_types": {"on": "Option P", "left": "Option P"},
        "accessors": {"is_none": "{}.isNone"}}

OK = [
    ("{ let l = match a { X::P(v) => v, X::Q => return c, }; l }", dict(VAL, paths={"X::P": "X.p", "X::Q": "X.q"})),
    ("{ if let (Some(x), Some(y)) = (a, b) { *is_inside = x == y; } }", ACC),
    ("{ match self { Self::B { .. } => {} Self::A { left, .. } => { *left = None; } } }", dict(ENUM, paths={"None": "none"})),
    ("{ if matches!(a, X::P(_)) { return c; } c }", dict(VAL, paths={"X::P": "X.p"})),
    ("{ if a == b { *is_inside = true; } }", ACC),
    ("{ if v.len() < 2 { return; } if v[1] == c { *boundary_count += 1; } }", ACC),
    ("{ let mut t = T::zero(); for x in xs { t = t + x; } t }", VAL),
    ("{ let mut t = T::zero(); for x in xs { if x == c { return x; } t = t + x; } t }", VAL),
]
BAD = [
    ("match guard", "{ match a { X::Q if c == c => { return c; } _ => {} } c }", dict(VAL, paths={"X::Q": "X.q"})),
    ("alternatives binding different names", "{ let l = match a { X::P(v) | X::R(w) => c, X::Q => return c, }; l }",
     dict(VAL, paths={"X::P": "X.p", "X::Q": "X.q", "X::R": "X.r"})),
    ("let-match with two value arms", "{ let l = match a { X::P(v) => v, X::Q => c, }; l }", dict(VAL, paths={"X::P": "X.p", "X::Q": "X.q"})),
    ("struct pattern of an undeclared variant", "{ match self { Self::C { on } => {} } }", ENUM),
    ("struct pattern missing a field without ..", "{ match self { Self::A { on } => {} Self::B { .. } => {} } }", ENUM),
    ("panic without a choice", "{ match a { _ => panic!(\"x\") } }", VAL),
    ("swap of something that is not a mutable variable", "{ std::mem::swap(a, b); }", ACC),
    ("while without fuel / option_wrap", "{ let mut t = T::zero(); while t < c { t = t + c; } t }", VAL),
    ("computed index without a choice", "{ if v[a - 1] == c { *boundary_count += 1; } }", ACC),
    ("closure parameter type without a choice", "{ let f = |a: F| a; c }", VAL),
    ("unguarded Vec index", "{ if v[1] == c { *boundary_count += 1; } }", ACC),
    ("index beyond the guard", "{ if v.len() < 2 { return; } if v[2] == c { *boundary_count += 1; } }", ACC),
    ("guard that falls through", "{ if v.len() < 2 { *is_inside = true; } if v[1] == c { *boundary_count += 1; } }", ACC),
    ("unknown method", "{ if a.frobnicate(b) { *is_inside = true; } }", ACC),
    ("unknown no-argument method", "{ if a.frob() { *is_inside = true; } }", ACC),
    ("shadowing a mutable variable", "{ let is_inside = false; if is_inside { *boundary_count += 1; } }", ACC),
    ("statements after return", "{ return; *is_inside = true; }", ACC),
    ("value returned from a unit function", "{ return a; }", ACC),
    ("let mut without a type", "{ let mut q = a; q }", VAL),
    ("while loop", "{ let mut t = T::zero(); while t < c { t = t + c; } t }", VAL),
    ("break", "{ let mut t = T::zero(); for x in xs { break; } t }", VAL),
    ("debug_assert without a choice", "{ debug_assert!(a == b); if a == b { *is_inside = true; } }", ACC),
    ("unreachable without a choice", "{ match a { _ => unreachable!(\"x\") } }", VAL),
    ("expression statement", "{ a == b; *is_inside = true; }", ACC),
    ("assignment to something that is not a live mutable variable", "{ other = true; }", ACC),
    ("missing value", "{ if a == b { return c; } }", VAL),
    ("return inside a nested block expression", "{ let q = { if a == b { return c; } c }; q }", VAL),
    ("return inside an if expression that is not in tail position", "{ let q = if a == b { return c; } else { c }; q }", VAL),
]

def main():
    bad = 0
    for body, opts in OK:
        try:
            tr(body, opts)
        except rsexpr.TranslateError as e:
            print("REJECTED but should translate: %s  (%s)" % (body, e)); bad += 1
    for what, body, opts in BAD:
        try:
            t = tr(body, opts, {".fold": "(List.foldl {2} {1} {0})"})
            print("ACCEPTED but should be rejected (%s): %s\n  -> %s" % (what, body, t)); bad += 1
        except rsexpr.TranslateError:
            pass
    print("test_rsexpr: %d accepted as expected, %d rejected as expected, %d wrong" % (len(OK), len(BAD), bad))
    sys.exit(1 if bad else 0)

if __name__ == "__main__":
    main()
